"""Shared machinery of every check (DESIGN.md section 2.1).

regenerate Gen/ -> lake build (flock) -> audit -> known findings / corpus ->
correspondence (implementation / model / oracle) -> search -> evidence.
"""
from __future__ import annotations

import fcntl
import hashlib
import json
import os
import re
import signal
import subprocess
import sys
import time
import traceback
from fractions import Fraction

HERE = os.path.dirname(os.path.abspath(__file__))
VERIF = os.path.dirname(HERE)
LEAN = os.path.join(VERIF, "lean")
REPO = os.environ.get("QUANTITY_REPO", "/repo")
EVID = os.path.join(VERIF, "evidence")
REPLAY = os.path.join(EVID, "replay")
DRIVER = os.path.join(LEAN, ".lake", "build", "bin", "driver")
ALLOWED_AXIOMS = {"propext", "Classical.choice", "Quot.sound"}

TRUSTED_BASE = [
    "Lean 4.33.0 kernel; axioms limited to propext, Classical.choice, "
    "Quot.sound (audited by `#print axioms` on every property theorem on "
    "every run; no sorry/admit/native_decide/bv_decide/implemented_by/unsafe)",
    "Mathlib v4.33.0 (imported module-wise in Proofs/ and Props/ only)",
    "harness/translate.py (Python AST -> Lean for the integer/rational "
    "kernels and the declarative tables), validated on every run by running "
    "generated Lean and Python on the same inputs",
    "correspondence check harness (pyside.py, generators, canonicaliser): "
    "differential testing of the hand-written model against the real code, "
    "bounded by what it generates",
    "decimalfp is modelled as exact rational arithmetic (pure-Python "
    "implementation exercised; its C extension is not)",
    "CPython int/Fraction/hash/dict semantics",
]

ASSUMPTIONS = [
    "harness processes run with DECIMALFP_FORCE_PYTHON_IMPL=1 (the C "
    "extension of decimalfp 0.13.0 in this sandbox corrupts the heap on "
    "9-digit decimals; see DESIGN.md section 4)",
    "not modelled: __format__ with a spec, __repr__, pickling, float "
    "elements inside terms, datetime as validity, a subclass quantity as the "
    "defining quantity of a parent-type unit, units declared directly on "
    "Quantity; the stored scale of a unit defined over a definition-less "
    "unit is compared between model and code only (it denotes nothing)",
]


class Timeout(Exception):
    pass


# --------------------------------------------------------------------------
# Lean side
# --------------------------------------------------------------------------

def _lock():
    os.makedirs(os.path.join(LEAN, ".lake"), exist_ok=True)
    f = open(os.path.join(LEAN, ".lake", "verif.lock"), "w")
    fcntl.flock(f, fcntl.LOCK_EX)
    return f


def lake_build(targets, timeout=3000):
    """Build targets under an exclusive lock.  Returns (ok, log)."""
    lock = _lock()
    try:
        p = subprocess.run(["lake", "build"] + list(targets), cwd=LEAN,
                           capture_output=True, text=True, timeout=timeout)
        return p.returncode == 0, p.stdout + p.stderr
    except subprocess.TimeoutExpired as exc:
        raise Timeout(f"lake build {targets}") from exc
    finally:
        lock.close()


def strip_lean_comments(text):
    out, i, depth, n = [], 0, 0, len(text)
    while i < n:
        if text.startswith("/-", i):
            depth += 1
            i += 2
        elif depth and text.startswith("-/", i):
            depth -= 1
            i += 2
        elif depth:
            i += 1
        elif text.startswith("--", i):
            j = text.find("\n", i)
            i = n if j < 0 else j
        elif text[i] == '"':
            j = i + 1
            while j < n and text[j] != '"':
                j += 2 if text[j] == "\\" else 1
            out.append(text[i:j + 1])
            i = j + 1
        else:
            out.append(text[i])
            i += 1
    return "".join(out)


FORBIDDEN = re.compile(
    r"\bsorry\b|\badmit\b|^\s*axiom\s|\bnative_decide\b|\bbv_decide\b|"
    r"\bimplemented_by\b|\bunsafe\s|maxHeartbeats\s+0\b|\bextern\b",
    re.M)


def grep_forbidden():
    hits = []
    for root, _, files in os.walk(LEAN):
        if ".lake" in root:
            continue
        for fn in files:
            if fn.endswith(".lean"):
                p = os.path.join(root, fn)
                with open(p, encoding="utf-8") as f:
                    txt = strip_lean_comments(f.read())
                for m in FORBIDDEN.finditer(txt):
                    hits.append(f"{os.path.relpath(p, LEAN)}: {m.group(0)!r}")
    return hits


def theorems_of(module):
    """Fully qualified names of the theorems stated in a Props module."""
    path = os.path.join(LEAN, *module.split(".")) + ".lean"
    with open(path, encoding="utf-8") as f:
        txt = strip_lean_comments(f.read())
    names, ns = [], []
    for line in txt.splitlines():
        m = re.match(r"\s*namespace\s+(\S+)", line)
        if m:
            ns.append(m.group(1))
            continue
        m = re.match(r"\s*end\s+(\S+)", line)
        if m and ns and ns[-1] == m.group(1):
            ns.pop()
            continue
        if re.match(r"\s*private\s+theorem\s", line):
            continue          # local helper, not a property theorem
        m = re.match(r"\s*(?:protected\s+)?theorem\s+(\S+)", line)
        if m:
            names.append(".".join(ns + [m.group(1)]))
    return names


def print_axioms(module, names, timeout=1200):
    """Run `#print axioms` for every name.  Returns {name: set(axioms)|None}."""
    src = f"import {module}\n" + "".join(
        f"#print axioms {n}\n" for n in names)
    tmp = os.path.join(LEAN, ".lake", f"audit_{module.split('.')[-1]}_"
                       f"{os.getpid()}.lean")
    with open(tmp, "w", encoding="utf-8") as f:
        f.write(src)
    try:
        p = subprocess.run(["lake", "env", "lean", tmp], cwd=LEAN,
                           capture_output=True, text=True, timeout=timeout)
    except subprocess.TimeoutExpired as exc:
        raise Timeout("print axioms") from exc
    finally:
        try:
            os.unlink(tmp)
        except OSError:
            pass
    out = p.stdout + p.stderr
    res = {n: None for n in names}
    # messages look like: 'Name' depends on axioms: [a, b]  /  does not depend
    for m in re.finditer(r"'([^']+)' depends on axioms: \[([^\]]*)\]", out,
                         re.S):
        res[m.group(1)] = {a.strip() for a in m.group(2).split(",")
                           if a.strip()}
    for m in re.finditer(r"'([^']+)' does not depend on any axioms", out):
        res[m.group(1)] = set()
    return res, out


def run_driver(lines, timeout=1800):
    """Pipe protocol lines through the native model driver."""
    data = "".join(l + "\n" for l in lines)
    try:
        p = subprocess.run([DRIVER], input=data, capture_output=True,
                           text=True, timeout=timeout)
    except subprocess.TimeoutExpired as exc:
        raise Timeout("model driver") from exc
    if p.returncode != 0:
        raise RuntimeError(f"driver exited {p.returncode}: {p.stderr[:500]}")
    out = p.stdout.split("\n")
    if out and out[-1] == "":
        out.pop()
    if len(out) != len(lines):
        raise RuntimeError(f"driver produced {len(out)} lines for "
                           f"{len(lines)} operations")
    return out


# --------------------------------------------------------------------------
# canonical text
# --------------------------------------------------------------------------

def rat(x):
    """Canonical `n/d` of any exact number (never via float/str)."""
    f = Fraction(x)
    return f"{f.numerator}/{f.denominator}"


def parse_rat(s):
    n, _, d = s.partition("/")
    return Fraction(int(n), int(d) if d else 1)


ERR_ORDER = None


def err_name(exc):
    """Map an exception to the small enum, most specific library class
    first."""
    import quantity
    from quantity import exceptions as qe
    for cls, name in ((qe.IncompatibleUnitsError, "IncompatibleUnitsError"),
                      (qe.UndefinedResultError, "UndefinedResultError"),
                      (qe.UnitConversionError, "UnitConversionError"),
                      (qe.QuantityError, "QuantityError"),
                      (ZeroDivisionError, "ZeroDivisionError"),
                      (AssertionError, "AssertionError"),
                      (IndexError, "IndexError"),
                      (KeyError, "KeyError"),
                      (OverflowError, "OverflowError"),
                      (AttributeError, "AttributeError"),
                      (TypeError, "TypeError"),
                      (ValueError, "ValueError")):
        if isinstance(exc, cls):
            return name
    return "Other"


# --------------------------------------------------------------------------
# known findings
# --------------------------------------------------------------------------

def load_known(prop):
    path = os.path.join(VERIF, "known_findings.json")
    try:
        with open(path, encoding="utf-8") as f:
            data = json.load(f)
    except FileNotFoundError:
        return []
    return [k for k in data.get("findings", [])
            if k.get("property") == prop and k.get("status") == "open"]


def load_fixed(prop):
    """repaired defects of this property: their witnesses are run on every
    check, so a defect that returns is reported again (a `fixed` entry
    suppresses nothing)"""
    path = os.path.join(VERIF, "known_findings.json")
    try:
        with open(path, encoding="utf-8") as f:
            data = json.load(f)
    except FileNotFoundError:
        return []
    return [k for k in data.get("findings", [])
            if k.get("property") == prop and k.get("status") == "fixed" and k.get("witness")]


def run_witness(snippet, timeout=120):
    """execute a witness snippet on the real code in a fresh interpreter;
    returns None when it passes, else a description of the failure"""
    env = dict(os.environ, PYTHONPATH=os.path.join(REPO, "src"),
               DECIMALFP_FORCE_PYTHON_IMPL="1")
    try:
        p = subprocess.run(["/venv/bin/python", "-c", snippet], env=env, capture_output=True,
                           text=True, timeout=timeout, cwd="/")
    except subprocess.TimeoutExpired:
        return None          # infrastructure, never a verdict
    if p.returncode == 0:
        return None
    return (p.stderr or p.stdout).strip().splitlines()[-1][:300] if (p.stderr or p.stdout).strip() \
        else f"exit {p.returncode}"


# --------------------------------------------------------------------------
# reporting
# --------------------------------------------------------------------------

class Report:
    def __init__(self, prop, tier, seed):
        self.prop, self.tier, self.seed = prop, tier, seed
        self.t0 = time.time()
        self.violations = []          # (replay path, found_input: bool)
        self.known_hits = {}          # finding id -> count
        self.coverage = {}
        self.notes = []

    def write_replay(self, payload, tag):
        os.makedirs(REPLAY, exist_ok=True)
        blob = json.dumps(payload, sort_keys=True, default=str)
        h = hashlib.sha1(blob.encode()).hexdigest()[:10]
        path = os.path.join(REPLAY, f"{self.prop}-{tag}-{h}.json")
        with open(path, "w", encoding="utf-8") as f:
            json.dump(payload, f, indent=1, sort_keys=True, default=str)
        return path

    def violation(self, payload, tag, found_input=True):
        path = self.write_replay(payload, tag)
        self.violations.append((path, found_input))
        return path

    def finish(self, level="proof"):
        wall = time.time() - self.t0
        os.makedirs(EVID, exist_ok=True)
        ev = {
            "property_id": self.prop,
            "tier": self.tier,
            "seed": self.seed,
            "level": level,
            "coverage": self.coverage,
            "assumptions": ASSUMPTIONS,
            "wall_s": round(wall, 2),
            "violations": len(self.violations),
            "known_findings_hit": self.known_hits,
            "notes": self.notes,
        }
        with open(os.path.join(EVID, f"{self.prop}.json"), "w",
                  encoding="utf-8") as f:
            json.dump(ev, f, indent=1, default=str)
        for path, found in self.violations:
            tail = "" if found else " no-failing-input-found"
            print(f"VIOLATION property={self.prop} replay={path}{tail}")
        sys.stdout.flush()
        return 1 if self.violations else 0
