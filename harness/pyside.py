"""Implementation side of the line protocol: executes operations on the real
mamrhein/quantity code in-process and returns canonical observation lines.

Fresh global state per case comes from os.fork() after import (no hooks in
/repo).  Every exception is mapped to `err <Name>` (common.err_name).
"""
from __future__ import annotations

import json
import os
import signal
import sys
from fractions import Fraction

from common import err_name, parse_rat, rat

assert os.environ.get("DECIMALFP_FORCE_PYTHON_IMPL") == "1", \
    "harness must run with DECIMALFP_FORCE_PYTHON_IMPL=1 (DESIGN.md §4)"

import decimalfp  # noqa: E402
from decimalfp import Decimal, ROUNDING  # noqa: E402
from decimalfp import get_dflt_rounding_mode, set_dflt_rounding_mode  # noqa

import quantity  # noqa: E402

assert os.path.realpath(quantity.__file__).startswith(
    os.path.realpath(os.environ.get("QUANTITY_REPO", "/repo"))), \
    f"quantity imported from {quantity.__file__}, not from the repo"

OPS = {}


def op(name):
    def deco(fn):
        OPS[name] = fn
        return fn
    return deco


class dflt_mode:
    def __init__(self, name):
        self.mode = ROUNDING[name]

    def __enter__(self):
        self.old = get_dflt_rounding_mode()
        set_dflt_rounding_mode(self.mode)

    def __exit__(self, *a):
        set_dflt_rounding_mode(self.old)


def mode_arg(s):
    return None if s == "-" else ROUNDING[s]


def to_dec_or_frac(fr: Fraction):
    """An amount as the library would hold it: Decimal when finite."""
    try:
        return Decimal(fr)
    except ValueError:
        return fr


# ---- rounding kernels ----------------------------------------------------

@op("floordiv")
def _floordiv(st, x, y, m, d):
    with dflt_mode(d):
        return "ok %d" % quantity._floordiv_rounded(int(x), int(y),
                                                    mode_arg(m))


@op("quantfrac")
def _quantfrac(st, a, q, m, d):
    with dflt_mode(d):
        r = quantity._quantize_fraction(parse_rat(a), parse_rat(q),
                                        mode_arg(m))
        return "ok " + rat(r)


@op("decquant")
def _decquant(st, v, p, q, m, d):
    v, p = int(v), int(p)
    dec = Decimal(Fraction(v, 10 ** p), p)
    assert dec._value == v and dec._precision == p
    with dflt_mode(d):
        r = dec.quantize(to_dec_or_frac(parse_rat(q)), mode_arg(m))
        return "ok " + rat(r)


@op("decprec")
def _decprec(st, x, p, d):
    with dflt_mode(d):
        return "ok " + rat(Decimal(parse_rat(x), int(p)))


@op("togrid")
def _togrid(st, a, q, d):
    a, q = to_dec_or_frac(parse_rat(a)), to_dec_or_frac(parse_rat(q))
    with dflt_mode(d):
        return "ok " + rat(Decimal(a / q, 0) * q)


# ---- execution -------------------------------------------------------------

class State:
    """Per-case scratch state of the implementation side (objects by name)."""

    def __init__(self):
        self.obj = {}


def exec_ops(ops):
    st = State()
    out = []
    for o in ops:
        fn = OPS.get(o[0])
        if fn is None:
            out.append("bad-op")
            continue
        try:
            out.append(fn(st, *o[1:]))
        except Exception as exc:  # noqa: BLE001 - canonicalised
            out.append("err " + err_name(exc))
    return out


def run_case(case, timeout=120):
    if not case.get("fork"):
        return exec_ops(case["ops"])
    r, w = os.pipe()
    pid = os.fork()
    if pid == 0:  # child: fresh copy of the post-import state
        os.close(r)
        try:
            signal.alarm(timeout)
            out = exec_ops(case["ops"])
            data = json.dumps(out).encode()
        except BaseException as exc:  # noqa: BLE001
            data = json.dumps(["crash " + type(exc).__name__]).encode()
        with os.fdopen(w, "wb") as f:
            f.write(data)
        os._exit(0)
    os.close(w)
    with os.fdopen(r, "rb") as f:
        data = f.read()
    _, status = os.waitpid(pid, 0)
    if not data:
        return ["crash signal %d" % (status & 0x7f)] * len(case["ops"])
    out = json.loads(data)
    if len(out) != len(case["ops"]):
        out = out + ["crash"] * (len(case["ops"]) - len(out))
    return out
