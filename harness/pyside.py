"""Implementation side of the line protocol: executes operations on the real
mamrhein/quantity code in-process and returns canonical observation lines.

Fresh global state per case comes from os.fork() after import (no hooks in
/repo).  Every exception is mapped to `err <Name>` (common.err_name).
"""
from __future__ import annotations

import json
import os
import signal
import sys
from fractions import Fraction

from common import err_name, parse_rat, rat

assert os.environ.get("DECIMALFP_FORCE_PYTHON_IMPL") == "1", \
    "harness must run with DECIMALFP_FORCE_PYTHON_IMPL=1 (DESIGN.md §4)"

import decimalfp  # noqa: E402
from decimalfp import Decimal, ROUNDING  # noqa: E402
from decimalfp import get_dflt_rounding_mode, set_dflt_rounding_mode  # noqa

import quantity  # noqa: E402

assert os.path.realpath(quantity.__file__).startswith(
    os.path.realpath(os.environ.get("QUANTITY_REPO", "/repo"))), \
    f"quantity imported from {quantity.__file__}, not from the repo"

OPS = {}


def op(name):
    def deco(fn):
        OPS[name] = fn
        return fn
    return deco


class dflt_mode:
    def __init__(self, name):
        self.mode = ROUNDING[name]

    def __enter__(self):
        self.old = get_dflt_rounding_mode()
        set_dflt_rounding_mode(self.mode)

    def __exit__(self, *a):
        set_dflt_rounding_mode(self.old)


def mode_arg(s):
    return None if s == "-" else ROUNDING[s]


def to_dec_or_frac(fr: Fraction):
    """An amount as the library would hold it: Decimal when finite."""
    try:
        return Decimal(fr)
    except ValueError:
        return fr


# ---- rounding kernels ----------------------------------------------------

@op("floordiv")
def _floordiv(st, x, y, m, d):
    with dflt_mode(d):
        return "ok %d" % quantity._floordiv_rounded(int(x), int(y),
                                                    mode_arg(m))


@op("quantfrac")
def _quantfrac(st, a, q, m, d):
    with dflt_mode(d):
        r = quantity._quantize_fraction(parse_rat(a), parse_rat(q),
                                        mode_arg(m))
        return "ok " + rat(r)


@op("decquant")
def _decquant(st, v, p, q, m, d):
    v, p = int(v), int(p)
    dec = Decimal(Fraction(v, 10 ** p), p)
    assert dec._value == v and dec._precision == p
    with dflt_mode(d):
        r = dec.quantize(to_dec_or_frac(parse_rat(q)), mode_arg(m))
        return "ok " + rat(r)


@op("decprec")
def _decprec(st, x, p, d):
    with dflt_mode(d):
        return "ok " + rat(Decimal(parse_rat(x), int(p)))


@op("togrid")
def _togrid(st, a, q, d):
    a, q = to_dec_or_frac(parse_rat(a)), to_dec_or_frac(parse_rat(q))
    with dflt_mode(d):
        return "ok " + rat(Decimal(a / q, 0) * q)


# ---- execution -------------------------------------------------------------

class State:
    """Per-case scratch state of the implementation side (objects by name)."""

    def __init__(self):
        self.obj = {}
        self.numkind = "dec"


def exec_ops(ops):
    st = State()
    out = []
    for o in ops:
        fn = OPS.get(o[0])
        if fn is None:
            out.append("bad-op")
            continue
        try:
            out.append(fn(st, *o[1:]))
        except Exception as exc:  # noqa: BLE001 - canonicalised
            out.append("err " + err_name(exc))
    return out


def run_case(case, timeout=120):
    if not case.get("fork"):
        return exec_ops(case["ops"])
    r, w = os.pipe()
    pid = os.fork()
    if pid == 0:  # child: fresh copy of the post-import state
        os.close(r)
        try:
            signal.alarm(timeout)
            out = exec_ops(case["ops"])
            data = json.dumps(out).encode()
        except BaseException as exc:  # noqa: BLE001
            data = json.dumps(["crash " + type(exc).__name__]).encode()
        with os.fdopen(w, "wb") as f:
            f.write(data)
        os._exit(0)
    os.close(w)
    with os.fdopen(r, "rb") as f:
        data = f.read()
    _, status = os.waitpid(pid, 0)
    if not data:
        return ["crash signal %d" % (status & 0x7f)] * len(case["ops"])
    out = json.loads(data)
    if len(out) != len(case["ops"]):
        out = out + ["crash"] * (len(case["ops"]) - len(out))
    return out


# ---- terms (test elements) -------------------------------------------------

from quantity.term import Term  # noqa: E402
from numbers import Rational  # noqa: E402


class TElem:
    """Test element implementing the NonNumTermElem protocol with
    generator-chosen sort key, group (class), scale and normalised
    definition."""

    def __init__(self, st, ident, key, group, scale, base, normdef):
        self.st, self.ident, self.key, self.group = st, ident, key, group
        self.scale, self.base, self._nd = scale, base, normdef

    def is_base_elem(self):
        return self.base

    @property
    def definition(self):
        return self.normalized_definition

    @property
    def normalized_definition(self):
        if self.base:
            return Term(((self, 1),))
        return Term(items_from(self.st, self._nd), reduce_items=False)

    def norm_sort_key(self):
        return self.key

    def _get_factor(self, other):
        if not isinstance(other, TElem) or other.group != self.group:
            raise TypeError
        if self.scale is None or other.scale is None:
            return None
        return to_dec_or_frac(self.scale / other.scale)

    def __repr__(self):
        return f"a{self.ident}"


def items_from(st, s):
    if s == "-":
        return []
    out = []
    for part in s.split(";"):
        el, _, e = part.rpartition("^")
        if el.startswith("n:"):
            fr = parse_rat(el[2:])
            kind = st.numkind
            if kind == "int" and fr.denominator == 1:
                v = int(fr)
            elif kind == "frac":
                v = fr
            else:
                v = to_dec_or_frac(fr)
            out.append((v, int(e)))
        else:
            out.append((st.obj["atom", int(el[2:])], int(e)))
    return out


def show_items(items):
    if not items:
        return "-"
    out = []
    for el, e in items:
        if isinstance(el, TElem):
            out.append(f"a:{el.ident}^{e}")
        elif isinstance(el, float):
            out.append(f"FLOAT:{el!r}^{e}")
        elif isinstance(el, Rational):
            out.append(f"n:{rat(el)}^{e}")
        else:
            out.append(f"?:{type(el).__name__}^{e}")
    return ";".join(out)


@op("numkind")
def _numkind(st, kind):
    st.numkind = kind
    return "ok"


@op("atom")
def _atom(st, ident, key, group, scale, base, nd):
    sc = None if scale == "-" else parse_rat(scale)
    st.obj["atom", int(ident)] = TElem(st, int(ident), int(key), int(group),
                                       sc, base == "1", nd)
    return "ok"


def _T(st, s):
    return Term(items_from(st, s))


@op("t_mk")
def _t_mk(st, a):
    return "ok " + show_items(_T(st, a).items)


@op("t_norm")
def _t_norm(st, a):
    return "ok " + show_items(_T(st, a).normalized().items)


@op("t_mul")
def _t_mul(st, a, b):
    return "ok " + show_items((_T(st, a) * _T(st, b)).items)


@op("t_div")
def _t_div(st, a, b):
    return "ok " + show_items((_T(st, a) / _T(st, b)).items)


def _scalar(st, q):
    return items_from(st, f"n:{q}^1")[0][0]


@op("t_scale")
def _t_scale(st, q, a):
    t = _T(st, a)
    r1, r2 = _scalar(st, q) * t, t * _scalar(st, q)
    assert show_items(r1.items) == show_items(r2.items)
    return "ok " + show_items(r1.items)


@op("t_divs")
def _t_divs(st, a, q):
    return "ok " + show_items((_T(st, a) / _scalar(st, q)).items)


@op("t_rdivs")
def _t_rdivs(st, q, a):
    return "ok " + show_items((_scalar(st, q) / _T(st, a)).items)


@op("t_pow")
def _t_pow(st, a, n):
    return "ok " + show_items((_T(st, a) ** int(n)).items)


@op("t_recip")
def _t_recip(st, a):
    return "ok " + show_items(_T(st, a).reciprocal().items)


def _b(x):
    return "true" if x else "false"


@op("t_eq")
def _t_eq(st, a, b):
    ta, tb = _T(st, a), _T(st, b)
    eq, eq2 = ta == tb, tb == ta
    assert eq == eq2, "Term.__eq__ not symmetric"
    return f"ok eq={_b(eq)} hasheq={_b(hash(ta) == hash(tb))}"


@op("t_numelem")
def _t_numelem(st, a):
    n = _T(st, a).num_elem
    if n is None:
        return "ok none"
    if isinstance(n, float):
        return f"ok FLOAT:{n!r}"
    return "ok " + rat(n)


@op("t_split")
def _t_split(st, a):
    n, r = _T(st, a).split()
    return f"ok {rat(n)} {show_items(r.items)}"
