"""Implementation side of the line protocol: executes operations on the real
mamrhein/quantity code in-process and returns canonical observation lines.

Fresh global state per case comes from os.fork() after import (no hooks in
/repo).  Every exception is mapped to `err <Name>` (common.err_name).
"""
from __future__ import annotations

import json
import os
import signal
import sys
from fractions import Fraction

from common import err_name, parse_rat, rat

assert os.environ.get("DECIMALFP_FORCE_PYTHON_IMPL") == "1", \
    "harness must run with DECIMALFP_FORCE_PYTHON_IMPL=1 (DESIGN.md §4)"

import decimalfp  # noqa: E402
from decimalfp import Decimal, ROUNDING  # noqa: E402
from decimalfp import get_dflt_rounding_mode, set_dflt_rounding_mode  # noqa

import quantity  # noqa: E402

assert os.path.realpath(quantity.__file__).startswith(
    os.path.realpath(os.environ.get("QUANTITY_REPO", "/repo"))), \
    f"quantity imported from {quantity.__file__}, not from the repo"

OPS = {}

# ---- line coverage of the implementation (sys.monitoring, no hooks) --------
# Which lines of /repo/src/quantity the correspondence actually executed is
# measured, not assumed: every location fires once and is then disabled, so
# the cost is negligible.  Started after the imports, so only lines executed
# by protocol operations count (not import-time declarations).
COVER = set()
BRANCHES = set()      # (file, qualname, offset of the jump, offset reached)
_PAUSED = [False]     # True while a protocol operation imports a module
_SRC = os.path.realpath(os.path.dirname(quantity.__file__)) + os.sep


def start_cover():
    mon = getattr(sys, "monitoring", None)
    if mon is None or os.environ.get("VERIF_NO_COVER"):
        return False
    tool = mon.COVERAGE_ID
    try:
        mon.use_tool_id(tool, "verif-cover")
    except ValueError:
        return False

    def on_line(code, line):
        if _PAUSED[0]:
            return None      # import-time execution is not correspondence
        fn = code.co_filename
        if fn.startswith(_SRC):
            COVER.add((fn[len(_SRC):], line))
        return mon.DISABLE

    mon.register_callback(tool, mon.events.LINE, on_line)
    events = mon.events.LINE
    if not os.environ.get("VERIF_NO_BRANCH"):
        # both directions of every conditional jump in the repository's code:
        # a location stays monitored until its second destination was seen
        seen = {}

        def on_branch(code, src, dst):
            if _PAUSED[0]:
                return None
            fn = code.co_filename
            if not fn.startswith(_SRC):
                return mon.DISABLE
            key = (fn[len(_SRC):], code.co_qualname, src)
            d = seen.setdefault(key, set())
            if dst not in d:
                d.add(dst)
                BRANCHES.add((key[0], key[1], src, dst))
            return mon.DISABLE if len(d) >= 2 else None

        mon.register_callback(tool, mon.events.BRANCH, on_branch)
        events |= mon.events.BRANCH
    mon.set_events(tool, events)
    return True


def op(name):
    def deco(fn):
        OPS[name] = fn
        return fn
    return deco


class dflt_mode:
    def __init__(self, name):
        self.mode = ROUNDING[name]

    def __enter__(self):
        self.old = get_dflt_rounding_mode()
        set_dflt_rounding_mode(self.mode)

    def __exit__(self, *a):
        set_dflt_rounding_mode(self.old)


def mode_arg(s):
    return None if s == "-" else ROUNDING[s]


def to_dec_or_frac(fr: Fraction):
    """An amount as the library would hold it: Decimal when finite."""
    try:
        return Decimal(fr)
    except ValueError:
        return fr


# ---- rounding kernels ----------------------------------------------------

@op("floordiv")
def _floordiv(st, x, y, m, d):
    with dflt_mode(d):
        return "ok %d" % quantity._floordiv_rounded(int(x), int(y),
                                                    mode_arg(m))


@op("quantfrac")
def _quantfrac(st, a, q, m, d):
    with dflt_mode(d):
        r = quantity._quantize_fraction(parse_rat(a), parse_rat(q),
                                        mode_arg(m))
        return "ok " + rat(r)


@op("decquant")
def _decquant(st, v, p, q, m, d):
    v, p = int(v), int(p)
    dec = Decimal(Fraction(v, 10 ** p), p)
    assert dec._value == v and dec._precision == p
    with dflt_mode(d):
        r = dec.quantize(to_dec_or_frac(parse_rat(q)), mode_arg(m))
        return "ok " + rat(r)


@op("decprec")
def _decprec(st, x, p, d):
    with dflt_mode(d):
        return "ok " + rat(Decimal(parse_rat(x), int(p)))


@op("togrid")
def _togrid(st, a, q, d):
    a, q = to_dec_or_frac(parse_rat(a)), to_dec_or_frac(parse_rat(q))
    with dflt_mode(d):
        return "ok " + rat(Decimal(a / q, 0) * q)


# ---- execution -------------------------------------------------------------

from datetime import date as _dt_date  # noqa: E402


class State:
    """Per-case scratch state of the implementation side (objects by name)."""

    def __init__(self):
        self.obj = {}
        self.numkind = "dec"
        self.today = _dt_date(2000, 1, 1)


def exec_ops(ops):
    st = State()
    out = []
    for o in ops:
        fn = OPS.get(o[0])
        if fn is None:
            out.append("bad-op")
            continue
        try:
            out.append(fn(st, *o[1:]))
        except Exception as exc:  # noqa: BLE001 - canonicalised
            if isinstance(exc, ValueError) and o[0] != "unit_info" \
                    and str(exc).startswith("No unit with symbol"):
                # the protocol line names a unit that does not exist (the
                # declaration that should have created it was rejected): both
                # sides answer bad-op
                out.append("bad-op")
            else:
                out.append("err " + err_name(exc))
    return out


class CaseTimeout(Exception):
    """the forked child ran out of time: an infrastructure problem, never a verdict"""


def run_case(case, timeout=None):
    if not case.get("fork"):
        return exec_ops(case["ops"])
    if timeout is None:
        # generous and proportional to the case: a loaded machine must not
        # turn a long case into a failure
        timeout = 300 + len(case["ops"]) // 10
    r, w = os.pipe()
    pid = os.fork()
    if pid == 0:  # child: fresh copy of the post-import state
        os.close(r)
        try:
            signal.alarm(timeout)
            base, bbase = set(COVER), set(BRANCHES)
            out = exec_ops(case["ops"])
            data = json.dumps({"out": out, "cov": sorted(COVER - base),
                               "br": sorted(BRANCHES - bbase)}).encode()
        except BaseException as exc:  # noqa: BLE001
            data = json.dumps({"out": ["crash " + type(exc).__name__],
                               "cov": []}).encode()
        with os.fdopen(w, "wb") as f:
            f.write(data)
        os._exit(0)
    os.close(w)
    with os.fdopen(r, "rb") as f:
        data = f.read()
    _, status = os.waitpid(pid, 0)
    if not data:
        if (status & 0x7f) == signal.SIGALRM:
            raise CaseTimeout("case with %d operations exceeded %d s" % (len(case["ops"]), timeout))
        return ["crash signal %d" % (status & 0x7f)] * len(case["ops"])
    payload = json.loads(data)
    out = payload["out"]
    COVER.update((f, n) for f, n in payload["cov"])
    BRANCHES.update(tuple(b) for b in payload.get("br", []))
    if len(out) != len(case["ops"]):
        out = out + ["crash"] * (len(case["ops"]) - len(out))
    return out


# ---- terms (test elements) -------------------------------------------------

from quantity.term import Term  # noqa: E402
from numbers import Rational  # noqa: E402


class TElem:
    """Test element implementing the NonNumTermElem protocol with
    generator-chosen sort key, group (class), scale and normalised
    definition."""

    def __init__(self, st, ident, key, group, scale, base, normdef):
        self.st, self.ident, self.key, self.group = st, ident, key, group
        self.scale, self.base, self._nd = scale, base, normdef

    def is_base_elem(self):
        return self.base

    @property
    def definition(self):
        return self.normalized_definition

    @property
    def normalized_definition(self):
        if self.base:
            return Term(((self, 1),))
        return Term(items_from(self.st, self._nd), reduce_items=False)

    def norm_sort_key(self):
        return self.key

    def _get_factor(self, other):
        if not isinstance(other, TElem) or other.group != self.group:
            raise TypeError
        if self.scale is None or other.scale is None:
            return None
        return to_dec_or_frac(self.scale / other.scale)

    def __repr__(self):
        return f"a{self.ident}"


def items_from(st, s):
    if s == "-":
        return []
    out = []
    for part in s.split(";"):
        el, _, e = part.rpartition("^")
        if el.startswith("n:"):
            fr = parse_rat(el[2:])
            kind = st.numkind
            if kind == "int" and fr.denominator == 1:
                v = int(fr)
            elif kind == "frac":
                v = fr
            else:
                v = to_dec_or_frac(fr)
            out.append((v, int(e)))
        else:
            out.append((st.obj["atom", int(el[2:])], int(e)))
    return out


def show_items(items):
    if not items:
        return "-"
    out = []
    for el, e in items:
        if isinstance(el, TElem):
            out.append(f"a:{el.ident}^{e}")
        elif isinstance(el, float):
            out.append(f"FLOAT:{el!r}^{e}")
        elif isinstance(el, Rational):
            out.append(f"n:{rat(el)}^{e}")
        else:
            out.append(f"?:{type(el).__name__}^{e}")
    return ";".join(out)


@op("numkind")
def _numkind(st, kind):
    st.numkind = kind
    return "ok"


@op("atom")
def _atom(st, ident, key, group, scale, base, nd):
    sc = None if scale == "-" else parse_rat(scale)
    st.obj["atom", int(ident)] = TElem(st, int(ident), int(key), int(group),
                                       sc, base == "1", nd)
    return "ok"


def _T(st, s):
    return Term(items_from(st, s))


class HistoryDependent(Exception):
    """a term operation gave another result after its operands had been used"""


def _hist_indep(st, build, specs):
    """Run `build(*terms)` with fresh operands, with operands whose caches were
    warmed (hash, ==, normalized() called before) and with the operands'
    normal forms as operands: results must not depend on what was evaluated
    before (the cached normal form / hash of a term are memoised on first
    use).  Returns the result for fresh operands."""
    fresh = build(*[_T(st, a) for a in specs])
    ref_items = show_items(fresh.items)
    ref_norm = show_items(fresh.normalized().items)
    warm = []
    for a in specs:
        t = _T(st, a)
        hash(t)
        t == t          # noqa: B015
        t.normalized()
        warm.append(t)
    r = build(*warm)
    if show_items(r.items) != ref_items or show_items(r.normalized().items) != ref_norm \
            or not (r == fresh) or hash(r) != hash(fresh):
        raise HistoryDependent(f"warmed operands: {show_items(r.items)} / "
                               f"{show_items(r.normalized().items)} vs {ref_items} / {ref_norm}")
    # the result itself, used once, stays what it was
    r2 = build(*[_T(st, a) for a in specs])
    hash(r2)
    if show_items(r2.normalized().items) != ref_norm or show_items(r2.items) != ref_items:
        raise HistoryDependent("result changed after hashing")
    # operands given as their own normal forms (order of same-key elements may
    # differ: compare the normal forms as multisets)
    try:
        nf = [_T(st, a).normalized() for a in specs]
    except Exception:  # noqa: BLE001
        return fresh
    r3 = build(*nf)
    if sorted(show_items(r3.normalized().items).split(";")) != sorted(ref_norm.split(";")):
        raise HistoryDependent(f"normal-form operands: {show_items(r3.normalized().items)} vs {ref_norm}")
    return fresh


@op("t_mk")
def _t_mk(st, a):
    return "ok " + show_items(_T(st, a).items)


@op("t_norm")
def _t_norm(st, a):
    return "ok " + show_items(_T(st, a).normalized().items)


@op("t_mul")
def _t_mul(st, a, b):
    return "ok " + show_items(_hist_indep(st, lambda x, y: x * y, [a, b]).items)


@op("t_div")
def _t_div(st, a, b):
    return "ok " + show_items(_hist_indep(st, lambda x, y: x / y, [a, b]).items)


def _scalar(st, q):
    return items_from(st, f"n:{q}^1")[0][0]


@op("t_scale")
def _t_scale(st, q, a):
    t = _T(st, a)
    r1, r2 = _scalar(st, q) * t, t * _scalar(st, q)
    assert show_items(r1.items) == show_items(r2.items)
    return "ok " + show_items(r1.items)


@op("t_divs")
def _t_divs(st, a, q):
    return "ok " + show_items(_hist_indep(st, lambda x: x / _scalar(st, q), [a]).items)


@op("t_rdivs")
def _t_rdivs(st, q, a):
    return "ok " + show_items(_hist_indep(st, lambda x: _scalar(st, q) / x, [a]).items)


@op("t_pow")
def _t_pow(st, a, n):
    return "ok " + show_items(_hist_indep(st, lambda x: x ** int(n), [a]).items)


@op("t_recip")
def _t_recip(st, a):
    return "ok " + show_items(_hist_indep(st, lambda x: x.reciprocal(), [a]).items)


def _b(x):
    return "true" if x else "false"


@op("t_eq")
def _t_eq(st, a, b):
    ta, tb = _T(st, a), _T(st, b)
    eq, eq2 = ta == tb, tb == ta
    assert eq == eq2, "Term.__eq__ not symmetric"
    return f"ok eq={_b(eq)} hasheq={_b(hash(ta) == hash(tb))}"


@op("t_numelem")
def _t_numelem(st, a):
    n = _T(st, a).num_elem
    if n is None:
        return "ok none"
    if isinstance(n, float):
        return f"ok FLOAT:{n!r}"
    return "ok " + rat(n)


@op("t_split")
def _t_split(st, a):
    n, r = _T(st, a).split()
    return f"ok {rat(n)} {show_items(r.items)}"


# ---- terms over registry units ----------------------------------------------

def show_reg_items(items):
    if not items:
        return "-"
    out = []
    for el, e in items:
        if isinstance(el, float):
            out.append(f"FLOAT:{el!r}^{e}")
        elif isinstance(el, Rational):
            out.append(f"n:{rat(el)}^{e}")
        elif hasattr(el, "symbol"):
            out.append(f"u:{el.symbol}^{e}")
        else:
            out.append(f"?:{type(el).__name__}^{e}")
    return ";".join(out)


@op("rt_mk")
def _rt_mk(st, a):
    return "ok " + show_reg_items(Term(reg_items(st, a)).items)


@op("rt_norm")
def _rt_norm(st, a):
    t = Term(reg_items(st, a))
    n = t.normalized()
    assert show_reg_items(n.normalized().items) == show_reg_items(n.items), "normal form not idempotent"
    return "ok " + show_reg_items(n.items)


@op("rt_eq")
def _rt_eq(st, a, b):
    ta, tb = Term(reg_items(st, a)), Term(reg_items(st, b))
    eq, eq2 = ta == tb, tb == ta
    assert eq == eq2, "Term.__eq__ not symmetric"
    return f"ok eq={_b(eq)} hasheq={_b(hash(ta) == hash(tb))}"


# ---- registry and quantities ---------------------------------------------

from fractions import Fraction as _F  # noqa: E402
from quantity import Quantity, QuantityMeta, Unit  # noqa: E402


def _classes():
    return [b[0] for b in QuantityMeta._registry._item_list]


def _cls(st, name):
    for c in _classes():
        if c.__name__ == name:
            return c
    raise KeyError(name)


def reg_items(st, s):
    if s == "-":
        return []
    out = []
    for part in s.split(";"):
        el, _, e = part.rpartition("^")
        if el.startswith("n:"):
            out.append((to_dec_or_frac(parse_rat(el[2:])), int(e)))
        elif el.startswith("i:"):      # a plain Python int
            fr = parse_rat(el[2:])
            assert fr.denominator == 1
            out.append((int(fr), int(e)))
        elif el.startswith("f:"):      # a fractions.Fraction, whatever the value
            out.append((parse_rat(el[2:]), int(e)))
        elif el.startswith("c:"):
            out.append((_cls(st, el[2:]), int(e)))
        elif el.startswith("u:"):
            out.append((Unit(el[2:]), int(e)))
        else:
            raise KeyError(el)
    return out


def opt_str(s):
    return None if s == "-" else ("" if s == "<empty>" else s)


def amount_of(tok):
    if tok.startswith("I:"):          # a plain Python int
        fr = parse_rat(tok[2:])
        assert fr.denominator == 1
        return int(fr)
    if tok.startswith("L:"):          # a float with exactly this value
        fr = parse_rat(tok[2:])
        f = float(fr)
        assert _F(f) == fr, "token is not a float value"
        return f
    if tok.startswith("P:"):          # a standard library Decimal
        import decimal
        fr = parse_rat(tok[2:])
        with decimal.localcontext() as c:
            c.prec = 2000
            dv = decimal.Decimal(fr.numerator) / decimal.Decimal(fr.denominator)
        assert _F(dv) == fr, "token is not a finite decimal"
        return dv
    if tok.startswith("K:"):          # the SI prefix with this factor
        import quantity.si_prefixes as sp
        return sp.SI_PREFIX_MAP[to_dec_or_frac(parse_rat(tok[2:]))]
    if tok.startswith("F:"):
        return parse_rat(tok[2:])
    if tok.startswith("D:"):
        v, p = tok[2:].split(":")
        d = Decimal(_F(int(v), 10 ** int(p)), int(p))
        assert d._value == int(v) and d._precision == int(p)
        return d
    return to_dec_or_frac(parse_rat(tok))


def num_str(x):
    if isinstance(x, float):
        return f"FLOAT:{x!r}"
    if not isinstance(x, (Decimal, _F, int)):
        return f"?{type(x).__name__}"
    return rat(x)


def show_qty(q):
    assert type(q.amount) in (Decimal, _F), type(q.amount)
    return f"{num_str(q.amount)}@{q.unit.symbol}:{type(q).__name__}"


def show_val(v):
    if isinstance(v, Quantity):
        return "qty " + show_qty(v)
    if isinstance(v, tuple):
        f, u = v
        return f"pair {num_str(f)} {u.symbol if u is not None else 'none'}"
    if isinstance(v, bool):
        return "true" if v else "false"
    return "num " + num_str(v)


def qty_of(tok):
    a, _, u = tok.rpartition("@")
    unit = Unit(u)
    return unit.qty_cls(amount_of(a), unit)


@op("decl_class")
def _decl_class(st, name, cdef, rsym, rname, quantum):
    kw = {}
    if cdef != "-":
        items = reg_items(st, cdef)
        st.n_cdefs = getattr(st, "n_cdefs", 0) + 1
        if st.n_cdefs % 2 and all(isinstance(e, int) and e != 0 for _, e in items) \
                and items[0][1] > 0 and all(isinstance(c, type) for c, _ in items):
            # written with the operators of the quantity classes, as in the
            # documentation: Length / Duration ** 2, Mass * Length, Length ** 2
            c0, e0 = items[0]
            d = c0 ** e0 if e0 != 1 or len(items) == 1 else c0
            for c, e in items[1:]:
                if e > 0:
                    d = d * (c if e == 1 else c ** e)
                else:
                    d = d / (c if e == -1 else c ** -e)
            if not isinstance(d, Term):
                d = c0 ** 1
            kw["define_as"] = d
        else:
            kw["define_as"] = Term(items)
    if rsym != "-":
        kw["ref_unit_symbol"] = opt_str(rsym)
    if rname == "1" or rname.endswith(":1"):
        kw["ref_unit_name"] = "Name of " + name
    if quantum != "-":
        kw["quantum"] = to_dec_or_frac(parse_rat(quantum))
    # the functional form; every other declaration of a case hands over the
    # SAME namespace dict (a type must not share state through it)
    st.n_classes = getattr(st, "n_classes", 0) + 1
    if not hasattr(st, "clsdict"):
        st.clsdict = {}
    ns = st.clsdict if st.n_classes % 2 else {}
    # a type may be declared as a subclass of another concrete type
    # (`rname` = sub:<Parent>:0|1); it is a quantity type of its own all the same
    base = Quantity
    if rname.startswith("sub:"):
        base = _cls(st, rname.split(":")[1])
    cls = QuantityMeta(name, (base,), ns, **kw)
    return "ok " + cls.__name__


@op("new_unit")
def _new_unit(st, cls, sym, kind, *rest):
    c = _cls(st, cls)
    symbol = opt_str(sym)
    if kind == "none":
        d = None
    elif kind == "other":
        d = "not a definition"
    elif kind == "qty":
        with dflt_mode(rest[2]):
            unit = Unit(rest[1])
            d = unit.qty_cls(amount_of(rest[0]), unit)
    elif kind == "term":
        d = Term(reg_items(st, rest[0]))
    u = c.new_unit(symbol, None, d)
    return "ok " + u.symbol


@op("derive_unit")
def _derive_unit(st, cls, us, sym):
    c = _cls(st, cls)
    units = [] if us == "-" else [Unit(x) for x in us.split(",")]
    symbol = opt_str(sym)
    u = c.derive_unit_from(*units, symbol=symbol)
    return "ok " + u.symbol


def _opt_rat(x):
    return "none" if x is None else rat(x)


@op("observe")
def _observe(st):
    syms = sorted(f"{sym}={u.qty_cls.__name__}:{_opt_rat(u._equiv)}"
                  for sym, u in quantity._SYMBOL_UNIT_MAP.items())
    classes = []
    for c in _classes():
        us = ",".join(u.symbol for u in c.units())
        assert [u.symbol for u in c.units()] == list(c)
        ref = c.ref_unit.symbol if c.ref_unit is not None else "none"
        classes.append(f"{c.__name__}[{us}]ref={ref} q={_opt_rat(c.quantum)}")
    return "ok " + " ".join(syms) + " | " + " ".join(classes)


@op("unit_info")
def _unit_info(st, sym):
    u = Unit(sym)
    assert quantity._SYMBOL_UNIT_MAP[sym] is u
    assert u.qty_cls.get_unit_by_symbol(sym) is u and sym in u.qty_cls
    # "the identical object": also through copying, the symbol and the listing
    import copy
    assert copy.copy(u) is u and copy.deepcopy(u) is u and copy.deepcopy([u])[0] is u
    assert u.symbol == sym and str(u) == sym and u in tuple(u.qty_cls.units())
    assert u.is_derived_unit() == (not u.is_base_unit())
    return (f"ok cls={u.qty_cls.__name__} equiv={_opt_rat(u._equiv)} "
            f"base={_b(u.is_base_unit())} ref={_b(u.is_ref_unit())} "
            f"quantum={_opt_rat(u.quantum)}")


@op("uop")
def _uop(st, o, u, v):
    a, b = Unit(u), Unit(v)
    return "ok " + show_val(a * b if o == "mul" else a / b)


@op("upow")
def _upow(st, u, n, d):
    with dflt_mode(d):
        return "ok " + show_val(Unit(u) ** int(n))


@op("ueq")
def _ueq(st, u, v):
    a, b = Unit(u), Unit(v)
    r = a == b
    assert r == (b == a) and (a != b) == (not r)
    return "ok " + _b(r)


@op("ucmp")
def _ucmp(st, o, u, v):
    import operator
    a, b = Unit(u), Unit(v)
    return "ok " + _b(getattr(operator, o)(a, b))


@op("q_mk")
def _q_mk(st, cls, a, u, d):
    with dflt_mode(d):
        c = Quantity if cls == "-" else _cls(st, cls)
        return "ok qty " + show_qty(c(amount_of(a), Unit(u)))


@op("q_conv")
def _q_conv(st, a, u, d):
    with dflt_mode(d):
        return "ok qty " + show_qty(qty_of(a).convert(Unit(u)))


@op("q_equiv")
def _q_equiv(st, a, u, d):
    with dflt_mode(d):
        r = qty_of(a).equiv_amount(Unit(u))
        return "ok " + ("none" if r is None else num_str(r))


import operator as _op  # noqa: E402

_BIN = {"eq": _op.eq, "ne": _op.ne, "lt": _op.lt, "le": _op.le, "gt": _op.gt,
        "ge": _op.ge, "add": _op.add, "sub": _op.sub, "mul": _op.mul,
        "div": _op.truediv}


@op("q_bin")
def _q_bin(st, o, a, b, d):
    with dflt_mode(d):
        qa, qb = qty_of(a), qty_of(b)
        before = (qa.amount, qa.unit, qb.amount, qb.unit)
        if o in ("iadd", "isub"):
            # augmented assignment: `s = a; s += b` gives the sum, and every
            # later sum that uses `a` again is the sum of a's value
            s = qa
            if o == "iadd":
                s += qb
                later = qa + qb
            else:
                s -= qb
                later = qa - qb
            if show_val(later) != show_val(s) or before != (qa.amount, qa.unit, qb.amount, qb.unit):
                return (f"ok aliased: s={show_val(s)} later={show_val(later)} "
                        f"a={show_val(qa)}")
            return "ok " + show_val(s)
        r = _BIN[o](qa, qb)
        assert before == (qa.amount, qa.unit, qb.amount, qb.unit)
        if isinstance(r, bool):
            return "ok " + _b(r)
        return "ok " + show_val(r)


@op("q_unit")
def _q_unit(st, o, a, u, d):
    with dflt_mode(d):
        qa, unit = qty_of(a), Unit(u)
        if o == "mul":
            r = qa * unit
        elif o == "rmul":
            r = unit * qa
        elif o == "div":
            r = qa / unit
        else:
            r = unit / qa
        return "ok " + show_val(r)


@op("q_num")
def _q_num(st, o, a, k, d):
    with dflt_mode(d):
        qa = qty_of(a)
        kk = amount_of(k)
        if o == "mul":
            r1, r2 = qa * kk, kk * qa
            assert show_val(r1) == show_val(r2)
            r = r1
        elif o == "div":
            r = qa / kk
        elif o == "rdiv":
            r = kk / qa
        elif o == "neg":
            r = -qa
        elif o == "abs":
            r = abs(qa)
        else:
            try:
                r = qa ** int(parse_rat(k))
            except ValueError as exc:
                # decimalfp: Decimal(0) ** -1 raises ValueError('math domain
                # error'), Fraction(0) ** -1 ZeroDivisionError; canonicalised
                if "math domain" in str(exc):
                    raise ZeroDivisionError from None
                raise
        return "ok " + show_val(r)


@op("u_num")
def _u_num(st, o, u, k, d):
    with dflt_mode(d):
        unit = Unit(u)
        kk = amount_of(k)
        if o == "mul":
            r = unit * kk
        elif o == "rmul":
            r = kk * unit
        elif o == "div":
            r = unit / kk
        else:
            r = kk / unit
        return "ok " + show_val(r)


@op("q_quantize")
def _q_quantize(st, a, quant, m, d):
    with dflt_mode(d):
        return "ok qty " + show_qty(qty_of(a).quantize(qty_of(quant),
                                                      mode_arg(m)))


@op("q_round")
def _q_round(st, a, n, d):
    with dflt_mode(d):
        qa = qty_of(a)
        r = round(qa, int(n))
        if int(n) == 0:
            assert show_qty(round(qa)) == show_qty(r)
        return "ok qty " + show_qty(r)


@op("load_predefined")
def _load_predefined(st):
    _PAUSED[0] = True
    try:
        import quantity.predefined  # noqa: F401
    finally:
        _PAUSED[0] = False
    return "ok failed=0"


class _BoundConv:
    """a converter given as a bound method: every access yields a new, equal
    object"""

    def __init__(self, tc):
        self.tc = tc

    def convert(self, qty, to_unit):
        return self.tc(qty, to_unit)


@op("conv_obj")
def _conv_obj(st, name, cls, rows):
    from quantity import TableConverter
    table = []
    for row in rows.split(";"):
        ft, k, o = row.split(":")
        f, t = ft.split(">")
        table.append((Unit(f), Unit(t), _table_num(parse_rat(k), len(table)),
                      _table_num(parse_rat(o), len(table) + 1)))
    tc = TableConverter(table)
    n = len([k for k in st.obj if k[0] == "conv"])
    if n % 2:
        holder = _BoundConv(tc)
        st.obj["conv", name] = lambda: holder.convert      # a fresh bound method each time
    else:
        st.obj["conv", name] = lambda: tc
    st.obj["convname", name] = tc
    return "ok"


@op("conv_call")
def _conv_call(st, name, a, u, d):
    """the converter object called directly (not through a quantity)"""
    with dflt_mode(d):
        r = st.obj["convname", name](qty_of(a), Unit(u))
    return "ok none" if r is None else "ok " + num_str(r)


@op("conv_reg")
def _conv_reg(st, cls, name):
    _cls(st, cls).register_converter(st.obj["conv", name]())
    return "ok"


@op("conv_unreg")
def _conv_unreg(st, cls, name):
    _cls(st, cls).remove_converter(st.obj["conv", name]())
    return "ok"


@op("conv_list")
def _conv_list(st, cls):
    out = []
    for c in _cls(st, cls).registered_converters():
        hit = "?"
        for k, v in st.obj.items():
            if k[0] == "conv" and v() == c:
                hit = k[1]
        out.append(hit)
    return "ok " + ",".join(out)


@op("doc_rows")
def _doc_rows(st):
    """every 'Equivalent in <ref>' row of the documentation tables against the
    conversion the library computes now"""
    import re
    import translate
    _PAUSED[0] = True
    try:
        import quantity.predefined as pre
    finally:
        _PAUSED[0] = False
    bad, n = [], 0
    for section, header, cells in translate.parse_doc_tables(pre.__doc__):
        if "Equivalent in" in header and len(cells) == 4:
            sym, _name, _definition, eq = cells
            ref = re.search(r"Equivalent in '([^']+)'", header).group(1)
            n += 1
            got = (1 * Unit(sym)).convert(Unit(ref)).amount
            if _F(got) != _F(eq):
                bad.append(f"{sym}:{eq}!={rat(got)}")
    return f"ok rows={n} bad={','.join(bad) if bad else '-'}"


@op("prefix")
def _prefix(st, const):
    import quantity.si_prefixes as sp
    p = getattr(sp, const)
    # the prefix must also be the one found under its factor, and scale a unit by it
    assert sp.SI_PREFIX_MAP[p.factor] is p
    # the factor is an exact number: its reciprocal is the exact reciprocal
    inv = 1 / p.factor
    if isinstance(inv, float) or inv * p.factor != 1:
        return f"ok {p.name} {p.abbr} {rat(p.factor)} INEXACT-RECIPROCAL {inv!r}"
    return f"ok {p.name} {p.abbr} {rat(p.factor)}"


def _table_num(fr, i):
    """factors / offsets of a conversion table as plain ints, Fractions or
    Decimals in turn (any Rational is a legitimate entry)"""
    if fr.denominator == 1 and i % 2 == 0:
        return int(fr)
    if i % 3 == 0:
        return fr
    return to_dec_or_frac(fr)


@op("conv_table")
def _conv_table(st, cls, rows):
    from quantity import TableConverter
    c = _cls(st, cls)
    table = []
    for row in rows.split(";"):
        ft, k, o = row.split(":")
        f, t = ft.split(">")
        table.append((Unit(f), Unit(t), _table_num(parse_rat(k), len(table)),
                      _table_num(parse_rat(o), len(table) + 1)))
    # the list form and the mapping form (last row wins) in turn
    st.n_tables = getattr(st, "n_tables", 0) + 1
    if st.n_tables % 2 == 0:
        table = {(f, t): (k, o) for f, t, k, o in table}
    c.register_converter(TableConverter(table))
    return "ok"


@op("q_conv3")
def _q_conv3(st, a, v, w, d):
    with dflt_mode(d):
        return "ok qty " + show_qty(qty_of(a).convert(Unit(v)).convert(Unit(w)))


@op("q_convback")
def _q_convback(st, a, v, d):
    with dflt_mode(d):
        q = qty_of(a)
        m = q.convert(Unit(v))
        b = m.convert(q.unit)
        eq = (q == m)      # (symmetry is not guaranteed for inconsistent user tables)
        return f"ok qty {show_qty(b)} eq={_b(eq)}"


def _plain(kind):
    import decimal
    return {"int": 3, "bool": True, "Fraction": _F(3, 2), "Decimal": Decimal("1.5"),
            "stdDecimal": decimal.Decimal("1.5"), "float": 1.5, "complex": 1 + 2j,
            "str": "1.5", "None": None, "zero": 0}[kind]


@op("q_mixnum")
def _q_mixnum(st, o, a, kind):
    qa, k = qty_of(a), _plain(kind)
    fn = {"add": lambda: qa + k, "radd": lambda: k + qa, "sub": lambda: qa - k,
          "rsub": lambda: k - qa, "lt": lambda: qa < k, "le": lambda: qa <= k,
          "gt": lambda: qa > k, "ge": lambda: qa >= k, "eq": lambda: qa == k,
          "ne": lambda: qa != k}[o]
    r = fn()
    if o in ("eq", "ne"):
        r2 = (k == qa) if o == "eq" else (k != qa)
        assert r == r2
    if isinstance(r, bool):
        return "ok " + _b(r)
    return "ok " + show_val(r)


@op("q_sum")
def _q_sum(st, items, d):
    from quantity import sum as qsum
    with dflt_mode(d):
        qs = [] if items == "-" else [qty_of(t) for t in items.split(",")]

        def show(fn):
            try:
                r = fn()
            except Exception as exc:  # noqa: BLE001
                return "err " + err_name(exc)
            if isinstance(r, Quantity):
                return "ok qty " + show_qty(r)
            return "ok num " + num_str(r)

        # any iterable is accepted: a list, a tuple, a one-shot iterator and a
        # generator must all give the same result
        res = [show(lambda: qsum(qs)), show(lambda: qsum(tuple(qs))),
               show(lambda: qsum(iter(qs))), show(lambda: qsum(q for q in qs))]
        if qs:
            # an explicit start value is the first summand
            res.append(show(lambda: qsum(qs[1:], qs[0])))
            res.append(show(lambda: qsum(iter(qs[1:]), start=qs[0])))
        if len(set(res)) != 1:
            return "ok DIFFERENT " + " | ".join(res)
        return res[0]


@op("q_hash")
def _q_hash(st, a, b):
    qa, qb = qty_of(a), qty_of(b)
    eq = qa == qb
    heq = hash(qa) == hash(qb)
    if eq:
        assert (len({qa, qb}) == 1) == heq
    return f"ok eq={_b(eq)} hasheq={_b(heq)}"


@op("q_hash_stable")
def _q_hash_stable(st, a, name):
    """the hash of a quantity does not change while a money converter is active"""
    q = qty_of(a)
    h1 = hash(q)
    c = st.obj["mc", name]
    with c:
        h2 = hash(q)
        same_in = hash(qty_of(a)) == h2
    h3 = hash(q)
    return f"ok stable={_b(h1 == h2 == h3)} fresh={_b(same_in)}"


@op("u_hash")
def _u_hash(st, u, v):
    a, b = Unit(u), Unit(v)
    eq = a == b
    return f"ok eq={_b(eq)} hasheq={_b(hash(a) == hash(b))}"


# ---- money -----------------------------------------------------------------

import datetime as _dt  # noqa: E402


def _money():
    _PAUSED[0] = True
    try:
        import quantity.money as qm
    finally:
        _PAUSED[0] = False
    return qm


@op("load_money")
def _load_money(st):
    _money()
    return "ok Money"


def _dec_with_prec(v, p):
    d = Decimal(_F(v), int(p))
    return d


@op("cur_new")
def _cur_new(st, sym, minor, sf):
    qm = _money()
    mi = None if minor == "-" else (2.5 if minor == "x" else int(minor))
    if sf == "-":
        s = None
    elif sf == "bad":
        s = "abc"
    else:
        v, p = sf.split(":")
        s = _dec_with_prec(parse_rat(v), p)
        assert s.precision == int(p)
        if st.numkind == "str":
            s = str(s)
    u = qm.Money.new_unit(opt_str(sym), None, mi, s)
    assert isinstance(u, qm.Currency) and u.quantum == u.smallest_fraction
    return f"ok {u.symbol} frac={rat(u.smallest_fraction)}"


@op("cur_reg")
def _cur_reg(st, code):
    qm = _money()
    before = qm.Money._unit_map.get(code)
    u = qm.Money.register_currency(code)
    return (f"ok {u.symbol} name={u.name} frac={rat(u.smallest_fraction)} "
            f"same={_b(before is u)}")


def _num_tok(tok):
    kind, _, v = tok.partition(":")
    if kind == "bad":
        return "abc"
    if kind == "none":
        return None
    fr = parse_rat(v)
    if kind == "int":
        assert fr.denominator == 1
        return int(fr)
    if kind == "dec":
        return Decimal(fr)
    if kind == "frac":
        return fr
    if kind == "float":
        f = float(fr)
        assert _F(f) == fr, "float token must be exactly representable"
        return f
    if kind == "str":
        try:
            return str(Decimal(fr))
        except ValueError:
            return f"{fr.numerator}/{fr.denominator}"
    raise KeyError(tok)


def show_rate(r):
    return (f"{r.unit_currency.symbol} {rat(r._unit_multiple)} "
            f"{r.term_currency.symbol} {rat(r._term_amount)}")


@op("rate_new")
def _rate_new(st, name, uc, um, tc, ta, d):
    qm = _money()
    with dflt_mode(d):
        # currencies may be given as objects or by their symbols, in turn
        st.n_rates = getattr(st, "n_rates", 0) + 1
        ucu, tcu = Unit(uc), Unit(tc)
        k = st.n_rates % 4
        r = qm.ExchangeRate(uc if k in (1, 3) else ucu, _num_tok(um),
                            tc if k in (2, 3) else tcu, _num_tok(ta))
        assert r.unit_currency is ucu and r.term_currency is tcu
    st.obj["rate", name] = r
    assert type(r._term_amount) is Decimal and type(r._unit_multiple) is Decimal
    q = r.quotation
    assert q == (r.unit_currency, r.term_currency, r.rate)
    return f"ok {show_rate(r)} rate={rat(r.rate)} inv={rat(r.inverse_rate)}"


@op("rate_inv")
def _rate_inv(st, a, name, d):
    if ("rate", a) not in st.obj:
        return "bad-op"
    with dflt_mode(d):
        r = st.obj["rate", a].inverted()
    st.obj["rate", name] = r
    return "ok " + show_rate(r)


@op("rate_op")
def _rate_op(st, o, a, b, name, d):
    if ("rate", a) not in st.obj or ("rate", b) not in st.obj:
        return "bad-op"
    x, y = st.obj["rate", a], st.obj["rate", b]
    with dflt_mode(d):
        r = x * y if o == "mul" else x / y
    st.obj["rate", name] = r
    return "ok " + show_rate(r)


@op("rate_eq")
def _rate_eq(st, a, b):
    if ("rate", a) not in st.obj or ("rate", b) not in st.obj:
        return "bad-op"
    x, y = st.obj["rate", a], st.obj["rate", b]
    eq = x == y
    assert eq == (y == x)
    heq = hash(x) == hash(y)
    if eq:
        assert (len({x, y}) == 1) == heq
    return f"ok eq={_b(eq)} hasheq={_b(heq)}"


@op("money_rate")
def _money_rate(st, o, m, rn, d):
    if ("rate", rn) not in st.obj:
        return "bad-op"
    r = st.obj["rate", rn]
    with dflt_mode(d):
        q = qty_of(m)
        if o == "mul":
            res = q * r
        elif o == "rmul":
            res = r * q
        elif o == "div":
            res = q / r
        else:
            res = r / q
    return "ok qty " + show_qty(res)


def _parse_date(s):
    y, m, d = s.split("-")
    return _dt.date(int(y), int(m), int(d))


@op("mc_new")
def _mc_new(st, name, base):
    qm = _money()
    st.obj["mc", name] = qm.MoneyConverter(Unit(base), lambda: st.today)
    st.obj["mcname", id(st.obj["mc", name])] = name
    return "ok"


@op("mc_today")
def _mc_today(st, dt):
    st.today = _parse_date(dt)
    return "ok"


def _vspell(s):
    if s == "none":
        return None
    if s == "other":
        return 3.5
    kind, _, v = s.partition(":")
    if kind == "int":
        return int(v)
    if kind == "tuple":
        y, m = v.split(",")
        return (int(y), int(m))
    if kind == "date":
        return _parse_date(v)
    if kind == "str":
        return v
    raise KeyError(s)


def _specs(s):
    if s == "-":
        return []
    out = []
    for i, sp in enumerate(s.split(";")):
        c, ta, um = sp.split(",")
        # a term currency is a Currency or its symbol (every third spec)
        if c.startswith("?"):
            # the symbol of a currency that is not registered
            out.append((c[1:], _num_tok(ta), _num_tok(um)))
            continue
        cur = Unit(c)
        out.append((c if (i + len(s)) % 3 == 0 else cur, _num_tok(ta), _num_tok(um)))
    return out


@op("mc_update")
def _mc_update(st, name, vs, specs, d):
    with dflt_mode(d):
        sp = _specs(specs)
        # the documented parameter type is Iterable[RateSpec]: hand the specs
        # over as a list, a tuple, a one-shot iterator or a generator in turn
        st.n_updates = getattr(st, "n_updates", 0) + 1
        k = st.n_updates % 4
        arg = sp if k == 1 else tuple(sp) if k == 2 else iter(sp) if k == 3 else (x for x in sp)
        st.obj["mc", name].update(_vspell(vs), arg)
    return "ok"


@op("mc_rate")
def _mc_rate(st, name, u, t, dt, d):
    with dflt_mode(d):
        r = st.obj["mc", name].get_rate(Unit(u), Unit(t),
                                        None if dt == "-" else _parse_date(dt))
    return "ok none" if r is None else "ok " + show_rate(r)


@op("mc_call")
def _mc_call(st, name, a, u, t, dt, d):
    with dflt_mode(d):
        unit = Unit(u)
        m = unit.qty_cls(amount_of(a), unit)
        r = st.obj["mc", name](m, Unit(t), None if dt == "-" else _parse_date(dt))
    return "ok " + num_str(r)


def _vfmt(v):
    if v is None:
        return "none"
    if isinstance(v, tuple):
        return f"{v[0]}-{v[1]}"
    if isinstance(v, _dt.date):
        return f"{v.year}-{v.month}-{v.day}"
    return str(v)


@op("mc_dump")
def _mc_dump(st, name):
    c = st.obj["mc", name]
    k = c._type_of_validity
    kind = "unset" if k is None else {type(None): "none", int: "year",
                                      tuple: "month", _dt.date: "day"}[k]
    lines = sorted(f"{_vfmt(v)}/{cur.symbol}={show_rate(r)}"
                   for (v, cur), r in c._rate_dict.items())
    return f"ok kind={kind} " + " ; ".join(lines)


@op("mc_stack")
def _mc_stack(st, o, name):
    qm = _money()
    c = st.obj["mc", name]
    if o == "reg":
        qm.Money.register_converter(c)
    elif o == "unreg":
        qm.Money.remove_converter(c)
    elif o == "enter":
        assert c.__enter__() is c
    elif o == "exit":
        assert c.__exit__(None, None, None) is None
    else:
        assert not c.__exit__(ValueError, ValueError("x"), None)
    return "ok"


@op("mc_stack_show")
def _mc_stack_show(st):
    qm = _money()
    return "ok " + ",".join(st.obj["mcname", id(c)] for c in qm.Money._converters)


@op("q_alloc")
def _q_alloc(st, a, ratios, disp, d):
    with dflt_mode(d):
        qa = qty_of(a)
        rs = []
        for t in ([] if ratios == "-" else ratios.split(",")):
            if t.startswith("n:"):
                rs.append(to_dec_or_frac(parse_rat(t[2:])) if st.numkind != "int" or parse_rat(t[2:]).denominator != 1
                          else int(parse_rat(t[2:])))
            else:
                rs.append(qty_of(t[2:]))
        before = (qa.amount, qa.unit)
        portions, rem = qa.allocate(rs, disp == "1")
        assert before == (qa.amount, qa.unit), "allocate changed its receiver"
        assert all(p is not qa for p in portions)
        assert all(type(p) is type(qa) and p.unit is qa.unit for p in portions)
        assert type(rem) is type(qa) and rem.unit is qa.unit
        for p in portions:
            assert type(p.amount) in (Decimal, _F)
        return (f"ok {','.join(rat(p.amount) for p in portions)}@{qa.unit.symbol}:"
                f"{type(qa).__name__} rem={rat(rem.amount)}")


@op("q_alloc_cmp")
def _q_alloc_cmp(st, a, ratios, other, d):
    """portions of an allocation (objects adjusted in place by the dispersal)
    compare with a freshly built equal quantity in ANOTHER unit exactly as their
    amounts say"""
    with dflt_mode(d):
        qa = qty_of(a)
        rs = []
        for t in ([] if ratios == "-" else ratios.split(",")):
            rs.append(to_dec_or_frac(parse_rat(t[2:])) if t.startswith("n:") else qty_of(t[2:]))
        portions, rem = qa.allocate(rs, True)
        ou = Unit(other)
        bad = []
        for i, p in enumerate(list(portions) + [rem]):
            twin = type(p)(p.amount, p.unit).convert(ou)
            if twin.convert(p.unit).amount != p.amount:
                continue        # the other unit's grid cannot hold this amount
            got = (p == twin, p != twin, p < twin, p <= twin, p > twin, p >= twin,
                   twin == p, twin < p, twin > p, hash(p) == hash(twin),
                   p.convert(ou).amount == twin.amount,
                   (p + p).amount == 2 * p.amount, (twin + p).amount == 2 * twin.amount,
                   p.equiv_amount(ou) == twin.amount)
            if got != (True, False, False, True, False, True, True, False, False, True,
                       True, True, True, True):
                bad.append(f"{i}:{rat(p.amount)}{p.unit.symbol}~{rat(twin.amount)}{ou.symbol}:{got}")
            bigger = type(p)(p.amount + (1 if p.unit.quantum is None else p.unit.quantum), p.unit).convert(ou)
            if not (p < bigger and bigger > p and p != bigger):
                bad.append(f"{i}:order")
        return "ok true" if not bad else "ok false " + ";".join(bad)


@op("q_str")
def _q_str(st, a):
    q = qty_of(a)
    s = str(q)
    assert format(q) == s and f"{q}" == s and "{}".format(q) == s
    return "ok " + s


@op("q_parse")
def _q_parse(st, cls, text, unit_arg, d):
    text = text.replace("\\t", "\t").replace("\\n", "\n")
    with dflt_mode(d):
        c = Quantity if cls == "-" else _cls(st, cls)
        if unit_arg == "-":
            q = c(text)
        else:
            q = c(text, Unit(unit_arg))
    return "ok qty " + show_qty(q)
