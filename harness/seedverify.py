#!/usr/bin/env python3
"""usage: harness/seedverify.py <worktree> <prop> <letter> <dest-id> "<needs>"

Confirms a seeded change written by a sub-agent in its scratch worktree
(patch_<letter>.diff + demo_<letter>.py) and files it under seeded/<dest-id>/:
 1. the patch applies to the pristine worktree,
 2. the repository's unedited suite passes with it,
 3. the demonstration fails with it and passes without it,
then copies patch.diff, demo.py and writes meta.json (what was run).
Never touches /repo.
"""
import json, os, shutil, subprocess, sys

wt, prop, letter, dest, needs = sys.argv[1:6]
env = dict(os.environ, PYTHONPATH=f"{wt}/src", PYTHONDONTWRITEBYTECODE="1")
env.pop("DECIMALFP_FORCE_PYTHON_IMPL", None)


def sh(cmd, **kw):
    return subprocess.run(cmd, shell=True, cwd=wt, capture_output=True, text=True, env=kw.get("env", env))


patch, demo = f"{wt}/patch_{letter}.diff", f"{wt}/demo_{letter}.py"
ran = []
assert sh("git status --porcelain -- src tests").stdout.strip() == "", "worktree not pristine"
r = sh(f"git apply --check {patch}"); assert r.returncode == 0, r.stderr
sh(f"git apply {patch}")
try:
    r = sh("/venv/bin/python -m pytest -q -p no:cacheprovider --timeout=900 tests 2>&1 | tail -3")
    suite = r.stdout.strip().splitlines()[-1] if r.stdout.strip() else "?"
    ran.append({"cmd": "pytest tests (change applied)", "result": suite})
    denv = dict(env, DECIMALFP_FORCE_PYTHON_IMPL="1")
    r1 = sh(f"/venv/bin/python {demo}", env=denv)
    ran.append({"cmd": f"demo_{letter}.py (change applied)", "exit": r1.returncode,
                "tail": (r1.stdout + r1.stderr).strip()[-400:]})
finally:
    sh("git checkout -- src tests")
r0 = sh(f"/venv/bin/python {demo}", env=dict(env, DECIMALFP_FORCE_PYTHON_IMPL="1"))
ran.append({"cmd": f"demo_{letter}.py (pristine)", "exit": r0.returncode,
            "tail": (r0.stdout + r0.stderr).strip()[-200:]})
ok = ("passed" in suite and "failed" not in suite and "error" not in suite
      and r1.returncode == 1 and r0.returncode == 0)
print(json.dumps(ran, indent=1))
if not ok:
    print("NOT CONFIRMED"); sys.exit(1)
d = f"/verif/seeded/{dest}"
os.makedirs(d, exist_ok=True)
shutil.copy(patch, f"{d}/patch.diff"); shutil.copy(demo, f"{d}/demo.py")
notes = f"{wt}/NOTES.md"
if os.path.exists(notes):
    shutil.copy(notes, f"{d}/NOTES.md")
json.dump({"id": dest, "property": prop, "breaks": prop, "needs_to_manifest": needs,
           "written_by": "independent sub-agent given only the property text and a scratch worktree",
           "confirmed": ran, "caught_by": []}, open(f"{d}/meta.json", "w"), indent=1)
print("CONFIRMED ->", d)
