#!/usr/bin/env python3
"""./check Cxx [--tier quick|thorough] [--replay file]

Exit 0: property held on everything explored.  Exit 1 + VIOLATION line(s).
Exit 2: infrastructure problem / timeout (never a verdict).
"""
from __future__ import annotations

import argparse
import importlib
import json
import os
import random
import re
import sys
import time
import traceback

sys.path.insert(0, os.path.dirname(os.path.abspath(__file__)))

import common  # noqa: E402
import translate  # noqa: E402
from common import Report, Timeout  # noqa: E402


def load_corpus(prop):
    d = os.path.join(common.HERE, "corpus", prop)
    cases = []
    if os.path.isdir(d):
        for fn in sorted(os.listdir(d)):
            if fn.endswith(".json"):
                with open(os.path.join(d, fn), encoding="utf-8") as f:
                    c = json.load(f)
                c.setdefault("tags", []).append("corpus:" + fn)
                cases.append(c)
    return cases


def failing_lean_files(log):
    return sorted(set(re.findall(r"error: (\S+\.lean):\d+", log)))


def run_cases(mod, cases, use_model, rep):
    """Run cases on implementation (+ model), return per-case records."""
    import pyside
    records = []
    all_lines, spans = [], []
    for c in cases:
        lines = ["\t".join(op) for op in c["ops"]]
        start = len(all_lines)
        all_lines.append("reset")
        all_lines.extend(lines)
        spans.append((start + 1, start + 1 + len(lines)))
    model_out = None
    model_err = None
    if use_model:
        try:
            model_out = common.run_driver(all_lines)
        except Timeout:
            raise
        except Exception as exc:  # driver crashed: correspondence broken
            model_err = f"{type(exc).__name__}: {exc}"
    impls = run_impl(cases)
    for c, (a, b), impl in zip(cases, spans, impls):
        rec = {"case": c, "impl": impl,
               "model": model_out[a:b] if model_out is not None else None}
        records.append(rec)
    return records, model_err


def _run_one(c):
    import pyside
    base, bbase = set(pyside.COVER), set(pyside.BRANCHES)
    try:
        out = pyside.run_case(c)
    except pyside.CaseTimeout as exc:
        return ("TIMEOUT", str(exc)), [], []
    return out, sorted(pyside.COVER - base), sorted(pyside.BRANCHES - bbase)


def run_impl(cases):
    """implementation side of every case; cases are independent of each other
    (each starts from the post-import state), so they are spread over worker
    processes - the result does not depend on the number of workers"""
    import multiprocessing
    import pyside
    jobs = int(os.environ.get("VERIF_JOBS", "0") or 0) or min(12, os.cpu_count() or 1)
    if jobs <= 1 or len(cases) < 8:
        outs = [_run_one(c) for c in cases]
    else:
        ctx = multiprocessing.get_context("fork")
        with ctx.Pool(jobs) as pool:
            outs = pool.map(_run_one, cases, chunksize=max(1, len(cases) // (jobs * 8)))
    res = []
    for out, cov, br in outs:
        if isinstance(out, tuple) and out and out[0] == "TIMEOUT":
            raise Timeout(out[1])
        pyside.COVER.update((f, n) for f, n in cov)
        pyside.BRANCHES.update(tuple(b) for b in br)
        res.append(out)
    return res


def main():
    ap = argparse.ArgumentParser()
    ap.add_argument("prop")
    ap.add_argument("--tier", default=os.environ.get("VERIF_TIER", "quick"),
                    choices=["quick", "thorough"])
    ap.add_argument("--replay")
    args = ap.parse_args()
    seed = int(os.environ.get("VERIF_SEED", "0") or 0)
    prop = args.prop
    mod = importlib.import_module(f"props.{prop}")
    rep = Report(prop, args.tier, seed)
    rng = random.Random(seed * 1000003 + int(prop[1:]))
    thorough = args.tier == "thorough"

    broken = []          # obligations / ties that no longer check
    # 1. translator ----------------------------------------------------
    changed, errs = translate.regenerate()
    for name, msg in errs.items():
        broken.append({"kind": "translator", "name": f"Gen/{name}",
                       "detail": msg})
    # 2. build ---------------------------------------------------------
    targets = list(mod.LEAN_TARGETS)
    if thorough and not args.replay:
        # clean rebuild of the library in the thorough tier
        pass
    ok, log = common.lake_build(targets + ["driver"])
    driver_ok = ok
    if not ok:
        files = failing_lean_files(log)
        broken.append({"kind": "proof", "name": ", ".join(files) or
                       "lake build", "detail": log[-3000:]})
        driver_ok, _ = common.lake_build(["driver"])
    # 3. audit ---------------------------------------------------------
    theorems, axioms = [], {}
    if ok:
        for t in targets:
            if ".Props." in t:
                theorems += common.theorems_of(t)
        if theorems:
            prop_mod = [t for t in targets if ".Props." in t][0]
            axioms, raw = common.print_axioms(prop_mod, theorems)
            for n in theorems:
                ax = axioms.get(n)
                if ax is None:
                    broken.append({"kind": "audit", "name": n,
                                   "detail": "#print axioms gave no answer: "
                                   + raw[-500:]})
                elif not ax <= common.ALLOWED_AXIOMS:
                    broken.append({"kind": "audit", "name": n, "detail":
                                   f"axioms {sorted(ax)}"})
        hits = common.grep_forbidden()
        if hits:
            broken.append({"kind": "audit", "name": "forbidden tokens",
                           "detail": "; ".join(hits[:10])})
    discharged = sum(1 for n in theorems
                     if axioms.get(n) is not None
                     and axioms[n] <= common.ALLOWED_AXIOMS)
    if thorough and ok and not args.replay:
        lc_ok, lc_log = leanchecker(targets)
        if not lc_ok:
            broken.append({"kind": "audit", "name": "leanchecker",
                           "detail": lc_log[-2000:]})

    # 4. cases ---------------------------------------------------------
    if args.replay:
        with open(args.replay, encoding="utf-8") as f:
            payload = json.load(f)
        cases = payload.get("cases") or ([payload["case"]]
                                         if "case" in payload else [])
    else:
        cases = load_corpus(prop) + list(mod.known_witness_cases()) \
            + list(mod.gen_cases(rng, args.tier))
    t_cases = time.time()
    import pyside
    covering = pyside.start_cover()
    records, model_err = run_cases(mod, cases, driver_ok, rep)
    if model_err:
        broken.append({"kind": "correspondence", "name": "model driver",
                       "detail": model_err})

    known = {k["site"]: k for k in common.load_known(prop)}
    known_seen = {}
    new_failures, disagreements = [], []
    dist, distinct = {}, set()
    for rec in records:
        c = rec["case"]
        for t in c.get("tags", []):
            dist[t] = dist.get(t, 0) + 1
        # correspondence
        if rec["model"] is not None and not c.get("oracle_only"):
            for i, (a, b) in enumerate(zip(rec["impl"], rec["model"])):
                if a != b and not mod.tolerated(c, i, a, b):
                    disagreements.append({"case": c, "line": i,
                                          "op": c["ops"][i], "impl": a,
                                          "model": b})
                    break
        # oracle
        for fail in mod.oracle(c, rec["impl"]):
            site = fail.get("site", "?")
            if site in known:
                known_seen.setdefault(site, fail)
                rep.known_hits[site] = rep.known_hits.get(site, 0) + 1
            else:
                new_failures.append({"case": c, "impl": rec["impl"],
                                     "failure": fail})
        key = mod.nontrivial_key(c, rec["impl"])
        if isinstance(key, (set, frozenset, list)):
            distinct.update(key)
        elif key is not None:
            distinct.add(key)
    # operations both sides refused to interpret (harness artefacts such as
    # tokens naming objects whose creation was rejected): kept visible
    bad_ops = {}
    for rec in records:
        for o, a in zip(rec["case"]["ops"], rec["impl"]):
            if a == "bad-op":
                bad_ops[o[0]] = bad_ops.get(o[0], 0) + 1
    for site, fail in known_seen.items():
        print(f"KNOWN-FINDING: property={prop} {known[site]['what']}")
    # repaired defects must stay repaired
    if not args.replay:
        for k in common.load_fixed(prop):
            why = common.run_witness(k["witness"])
            if why is not None:
                new_failures.append({"case": {"ops": [["witness", k["id"]]], "witness": k["witness"]},
                                     "impl": [why],
                                     "failure": {"site": "fixed-defect-returned:" + k["id"],
                                                 "msg": f"{k['what']} -- witness fails again: {why}"}})

    # 5. search on break ----------------------------------------------
    searched = 0
    if (broken or disagreements) and not new_failures and not args.replay:
        budget = 600 if thorough else 30
        t_end = time.time() + budget
        srng = random.Random(seed + 7919)
        import pyside
        focus = [d["case"] for d in disagreements]
        while time.time() < t_end and not new_failures:
            batch = list(mod.search_cases(srng, focus, broken))
            if not batch:
                break
            for c in batch:
                impl = pyside.run_case(c)
                searched += 1
                for fail in mod.oracle(c, impl):
                    if fail.get("site", "?") not in known:
                        new_failures.append({"case": c, "impl": impl,
                                             "failure": fail})
                        break
                if new_failures:
                    break

    # 6. report --------------------------------------------------------
    if new_failures:
        first = min(new_failures, key=lambda f: len(f["case"]["ops"]))
        payload = {"property": prop, "kind": "failing-input",
                   "failure": first["failure"], "case": first["case"],
                   "impl_output": first["impl"],
                   "how_to_replay": f"./check {prop} --replay <this file>",
                   "python_snippet": (
                       "DECIMALFP_FORCE_PYTHON_IMPL=1 PYTHONPATH=/repo/src:/verif/harness "
                       "/venv/bin/python -c \"import json, pyside; "
                       "c = json.load(open('<this file>'))['case']; "
                       "[print(o, '->', r) for o, r in zip(c['ops'], pyside.run_case(c))]\"  "
                       "# executes the protocol operations on the real code"),
                   "also_broken": broken[:5],
                   "n_failing_cases": len(new_failures)}
        rep.violation(payload, "input", found_input=True)
    elif broken or disagreements:
        payload = {"property": prop, "kind": "no-failing-input-found",
                   "broken": broken,
                   "disagreements": disagreements[:5],
                   "searched_cases": searched,
                   "note": "the named theorem / correspondence no longer "
                           "checks; the property is no longer shown to hold"}
        rep.violation(payload, "broken", found_input=False)

    samples = []
    for rec in records[:3] + records[-2:]:
        samples.append({"ops": rec["case"]["ops"][:6], "impl": rec["impl"][:6],
                        "model": (rec["model"] or [])[:6]})
    rep.coverage = {
        "obligations": max(len(theorems), 1),
        "discharged": discharged,
        "theorems": theorems,
        "checker_cmd": f"cd /verif/lean && lake build {' '.join(targets)} "
                       "&& #print axioms audit (harness/common.py)"
                       + ("; lake env leanchecker" if thorough else ""),
        "trusted_base": common.TRUSTED_BASE + list(
            getattr(mod, "TRUSTED_EXTRA", [])),
        "evaluations": sum(len(r["case"]["ops"]) for r in records),
        "cases": len(records),
        "distinct_nontrivial": len(distinct),
        "rule": mod.RULE,
        "samples": samples,
        "traces_validated_against_impl": len(records) if driver_ok else 0,
        "disagreements_checked": len(disagreements),
        "distribution": dict(sorted(dist.items())),
        "gen_files_changed_this_run": changed,
        "uninterpreted_operations": bad_ops,
        "broken_obligations": [b["name"] for b in broken],
        "search_cases": searched,
        "exhaustive": bool(getattr(mod, "EXHAUSTIVE", {}).get(args.tier)),
    }
    if covering:
        import cover
        rep.coverage["impl_line_coverage"] = cover.summarise(
            pyside.COVER, getattr(mod, "IMPL_FUNCS", None))
        rep.coverage["impl_branch_coverage"] = cover.summarise_branches(pyside.BRANCHES)
    if not ok:
        rep.coverage["discharged"] = 0
    rc = rep.finish("proof")
    sys.exit(rc)


def leanchecker(targets):
    import subprocess
    mods = [t for t in targets if t.startswith("QuantityModel.")]
    try:
        p = subprocess.run(["lake", "env", "leanchecker"] + mods,
                           cwd=common.LEAN, capture_output=True, text=True,
                           timeout=3000)
    except subprocess.TimeoutExpired as exc:
        raise Timeout("leanchecker") from exc
    return p.returncode == 0, p.stdout + p.stderr


if __name__ == "__main__":
    try:
        main()
    except Timeout as exc:
        print(f"TIMEOUT: {exc}", file=sys.stderr)
        sys.exit(2)
    except SystemExit:
        raise
    except Exception:
        traceback.print_exc()
        sys.exit(2)
